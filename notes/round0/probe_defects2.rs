use cardano_serialization_lib::*;
use std::panic::catch_unwind;

fn cfg() -> TransactionBuilderConfig {
    TransactionBuilderConfigBuilder::new()
        .fee_algo(&LinearFee::new(&BigNum::from_str("44").unwrap(), &BigNum::from_str("155381").unwrap()))
        .pool_deposit(&BigNum::from_str("500000000").unwrap())
        .key_deposit(&BigNum::from_str("2000000").unwrap())
        .max_value_size(5000).max_tx_size(16384)
        .coins_per_utxo_byte(&BigNum::from_str("4310").unwrap())
        .ex_unit_prices(&ExUnitPrices::new(&UnitInterval::new(&BigNum::from_str("577").unwrap(), &BigNum::from_str("10000").unwrap()), &UnitInterval::new(&BigNum::from_str("721").unwrap(), &BigNum::from_str("10000000").unwrap())))
        .build().unwrap()
}
fn kh(b: u8) -> Ed25519KeyHash { Ed25519KeyHash::from_bytes(vec![b; 28]).unwrap() }
fn sh(b: u8) -> ScriptHash { ScriptHash::from_bytes(vec![b; 28]).unwrap() }
fn txin(b: u8, i: u32) -> TransactionInput { TransactionInput::new(&TransactionHash::from_bytes(vec![b; 32]).unwrap(), i) }
fn addr(b: u8) -> Address { EnterpriseAddress::new(1, &Credential::from_keyhash(&kh(b))).to_address() }
fn bn(s: &str) -> BigNum { BigNum::from_str(s).unwrap() }

#[test]
fn probes2() {
    // C04: set_body leaves stale hash
    {
        let body1 = TransactionBody::new_tx_body(&{ let mut i = TransactionInputs::new(); i.add(&txin(1,0)); i }, &TransactionOutputs::new(), &bn("1"));
        let body2 = TransactionBody::new_tx_body(&{ let mut i = TransactionInputs::new(); i.add(&txin(2,0)); i }, &TransactionOutputs::new(), &bn("2"));
        let mut ft = FixedTransaction::new_from_body_bytes(&body1.to_bytes()).unwrap();
        let h1 = ft.transaction_hash().to_hex();
        ft.set_body(&body2.to_bytes()).unwrap();
        let h2 = ft.transaction_hash().to_hex();
        let expect = FixedTransaction::new_from_body_bytes(&body2.to_bytes()).unwrap().transaction_hash().to_hex();
        println!("PROBE set_body_stale_hash: hash_after_set_body==old:{} ==H(new body):{}", h1 == h2, h2 == expect);
    }
    // C19: collateral return with a foreign asset accepted
    {
        let mut b = TransactionBuilder::new(&cfg());
        let mut col = TxInputsBuilder::new();
        col.add_regular_input(&addr(3), &txin(3,0), &Value::new(&bn("10000000"))).unwrap();
        b.set_collateral(&col);
        let mut ma = MultiAsset::new(); let mut a = Assets::new(); a.insert(&AssetName::new(vec![1]).unwrap(), &bn("1")); ma.insert(&sh(9), &a);
        let ret = TransactionOutput::new(&addr(4), &Value::new_with_assets(&bn("5000000"), &ma));
        let r = b.set_collateral_return_and_total(&ret);
        println!("PROBE collateral_foreign_asset: accepted={}", r.is_ok());
    }
    // C20: helper get_deposit ignores proposals; helper implicit input refunds pool retirement
    {
        let mut body = TransactionBody::new_tx_body(&TransactionInputs::new(), &TransactionOutputs::new(), &bn("0"));
        let mut certs = Certificates::new();
        certs.add(&Certificate::new_pool_retirement(&PoolRetirement::new(&kh(5), 100)));
        body.set_certs(&certs);
        let imp = get_implicit_input(&body, &bn("500000000"), &bn("2000000")).unwrap();
        let mut cb = CertificatesBuilder::new(); cb.add(&Certificate::new_pool_retirement(&PoolRetirement::new(&kh(5), 100))).unwrap();
        let mut tb = TransactionBuilder::new(&cfg()); tb.set_certs_builder(&cb);
        println!("PROBE pool_retirement_refund: helper={} builder={}", imp.coin().to_str(), tb.get_implicit_input().unwrap().coin().to_str());
        let mut props = VotingProposals::new();
        let ra = RewardAddress::new(1, &Credential::from_keyhash(&kh(6)));
        let anchor = Anchor::new(&URL::new("https://x.y".to_string()).unwrap(), &AnchorDataHash::from_bytes(vec![0; 32]).unwrap());
        props.add(&VotingProposal::new(&GovernanceAction::new_info_action(&InfoAction::new()), &anchor, &ra, &bn("100000")));
        let mut body2 = TransactionBody::new_tx_body(&TransactionInputs::new(), &TransactionOutputs::new(), &bn("0"));
        body2.set_voting_proposals(&props);
        println!("PROBE proposal_deposit: helper_get_deposit={}", get_deposit(&body2, &bn("500000000"), &bn("2000000")).unwrap().to_str());
    }
    // C16: reference input order differs between builds
    {
        let mut b = TransactionBuilder::new(&cfg());
        for i in 0..12u8 { b.add_reference_input(&txin(100 + i, 0)); }
        let a = b.get_reference_inputs().to_bytes();
        let mut differs = false;
        for _ in 0..20 { if b.get_reference_inputs().to_bytes() != a { differs = true; } }
        let b2 = b.clone();
        if b2.get_reference_inputs().to_bytes() != a { differs = true; }
        println!("PROBE ref_inputs_nondeterministic: differs_within_process={}", differs);
    }
    // C10: withdrawals redeemer index = insertion order
    {
        let script = PlutusScript::new_v2(vec![1, 2, 3]);
        let ra_script = RewardAddress::new(1, &Credential::from_scripthash(&script.hash()));
        let ra_key_small = RewardAddress::new(1, &Credential::from_keyhash(&kh(0)));
        let red = Redeemer::new(&RedeemerTag::new_reward(), &bn("0"), &PlutusData::new_integer(&BigInt::from_str("1").unwrap()), &ExUnits::new(&bn("1"), &bn("1")));
        let w = PlutusWitness::new_without_datum(&script, &red);
        let mut wb = WithdrawalsBuilder::new();
        wb.add_with_plutus_witness(&ra_script, &bn("1"), &w).unwrap();
        wb.add(&ra_key_small, &bn("1")).unwrap();
        let idx_a = wb.get_plutus_witnesses().get(0).redeemer().index().to_str();
        let mut wb2 = WithdrawalsBuilder::new();
        wb2.add(&ra_key_small, &bn("1")).unwrap();
        wb2.add_with_plutus_witness(&ra_script, &bn("1"), &w).unwrap();
        let idx_b = wb2.get_plutus_witnesses().get(0).redeemer().index().to_str();
        println!("PROBE withdrawal_pointer_order_dependent: script_first={} key_first={} built_a={} built_b={}", idx_a, idx_b, hex::encode(wb.build().to_bytes()), hex::encode(wb2.build().to_bytes()));
    }
    // C14: mint add_asset leaves Int range
    {
        let r = catch_unwind(|| {
            let ns = NativeScript::new_timelock_start(&TimelockStart::new_timelockstart(&bn("1")));
            let mw = MintWitness::new_native_script(&NativeScriptSource::new(&ns));
            let mut mb = MintBuilder::new();
            let big = Int::new(&bn("18446744073709551615"));
            mb.add_asset(&mw, &AssetName::new(vec![1]).unwrap(), &big).unwrap();
            mb.add_asset(&mw, &AssetName::new(vec![1]).unwrap(), &big).unwrap();
            let m = mb.build().unwrap();
            let v = m.get(&ns.hash()).unwrap().get(0).unwrap().get(&AssetName::new(vec![1]).unwrap()).unwrap();
            format!("value={} bytes={}", v.to_str(), hex::encode(v.to_bytes()))
        });
        println!("PROBE mint_sum_out_of_range: {:?}", r.map_err(|_| "PANIC"));
    }
}
