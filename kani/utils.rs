// Kani harnesses for utils.rs (crate-private items: child module of the owner)
#![allow(unused_imports, dead_code)]
use super::*;
use crate::verif_kani_lib_level::stub_format;

/// C03: bounded bytes: <= 64 bytes => ONE definite byte string with the shortest head; > 64 => 0x5f, 64-byte definite chunks (last one
/// shorter, never empty), 0xff.  BOUNDED by input length 62..=66 (the 64/65 threshold between the definite and the chunked form).
#[kani::proof]
#[kani::unwind(70)]
fn bounded_bytes_layout_len130() {
    let buf = [0u8; 66];
    let len: usize = kani::any();
    kani::assume(len >= 62 && len <= 66);
    let mut se = cbor_event::se::Serializer::new_vec();
    match write_bounded_bytes(&mut se, &buf[..len]) { Ok(_) => {}, Err(_) => { assert!(false); return; } }
    let out = se.finalize();
    if len <= 64 {
        let head = if len <= 23 { 1 } else { 2 };
        assert!(out.len() == head + len);
        if len <= 23 { assert!(out[0] == 0x40 + len as u8); } else { assert!(out[0] == 0x58 && out[1] == len as u8); }
    } else {
        let full = len / 64;
        let last = len % 64;
        let nchunks = full + if last > 0 { 1 } else { 0 };
        // every full chunk: 0x58 0x40 + 64 bytes; last chunk: shortest head + bytes
        let last_sz = if last == 0 { 0 } else if last <= 23 { 1 + last } else { 2 + last };
        assert!(out.len() == 1 + full * 66 + last_sz + 1);
        assert!(out[0] == 0x5f);
        assert!(out[out.len() - 1] == 0xff);
        assert!(out[1] == 0x58 && out[2] == 0x40);
        assert!(nchunks >= 2);
    }
}
