// Kani harnesses for protocol_types/address.rs (private items: child module of the owner)
#![allow(unused_imports, dead_code)]
use super::*;
use crate::verif_kani_lib_level::stub_format;

/// C11: variable-length natural encode -> decode is the identity and consumes exactly the encoding, all u64
#[kani::proof]
#[kani::unwind(12)]
fn varnat_roundtrip_all_u64() {
    let x: u64 = kani::any();
    let enc = variable_nat_encode(x);
    assert!(enc.len() >= 1 && enc.len() <= 10);
    // last byte has the continuation bit clear, all others set
    assert!(enc[enc.len() - 1] & 0x80 == 0);
    match variable_nat_decode(&enc) {
        Some((y, n)) => { assert!(y == x); assert!(n == enc.len()); }
        None => assert!(false, "decode of an encoding failed"),
    }
}
