// Kani harnesses for protocol_types/address.rs (private items: child module of the owner)
#![allow(unused_imports, dead_code)]
use super::*;
use crate::verif_kani_lib_level::stub_format;

/// Byron arm: CBOR-in-CBOR + CRC32, out of scope (n/c); replaced by "any failure" so the Shelley arms are decided alone
fn stub_byron_from_bytes(_bytes: Vec<u8>) -> Result<ByronAddress, JsError> {
    Err(JsError::from_str(""))
}

/// C11: variable-length natural encode -> decode is the identity and consumes exactly the encoding, all u64
#[kani::proof]
#[kani::unwind(12)]
fn varnat_roundtrip_all_u64() {
    let x: u64 = kani::any();
    let enc = variable_nat_encode(x);
    assert!(enc.len() >= 1 && enc.len() <= 10);
    // last byte has the continuation bit clear, all others set
    assert!(enc[enc.len() - 1] & 0x80 == 0);
    match variable_nat_decode(&enc) {
        Some((y, n)) => { assert!(y == x); assert!(n == enc.len()); }
        None => { assert!(false, "decode of an encoding failed"); }
    }
}

/// C02/C11: variable_nat_decode on ANY slice of length <= 11 returns (never panics) and is EXACT: a result (v, n) means bytes[..n] is a
/// terminated base-128 big-endian numeral whose value is v with no bit lost; None means unterminated within the slice or value > u64::MAX.
/// BOUNDED by slice length 11 (one more than the longest canonical encoding).
#[kani::proof]
#[kani::unwind(13)]
fn varnat_decode_total_len11() {
    let buf: [u8; 11] = kani::any();
    let len: usize = kani::any();
    kani::assume(len <= 11);
    // reference semantics computed independently in the harness (u128 accumulator, no truncation)
    let mut acc: u128 = 0;
    let mut expect: Option<(u64, usize)> = None;
    let mut done = false;
    let mut i = 0;
    while i < 11 {
        if i < len && !done {
            acc = (acc << 7) | (buf[i] & 0x7F) as u128;
            if acc > u64::MAX as u128 { done = true; }
            else if buf[i] & 0x80 == 0 { expect = Some((acc as u64, i + 1)); done = true; }
        }
        i += 1;
    }
    match variable_nat_decode(&buf[..len]) {
        Some((v, n)) => {
            assert!(n >= 1 && n <= len);
            assert!(buf[n - 1] & 0x80 == 0);
            match expect { Some((ev, en)) => { assert!(v == ev && n == en); } None => { assert!(false, "accepted an overflowing or unterminated field"); } }
        }
        None => { assert!(expect.is_none()); }
    }
}

fn expect_kind(header: u8) -> u8 { (header & 0xF0) >> 4 }

/// C11/C02 family (i): header/length dispatch.  All 256 header bytes x all lengths 0..=60 x both strictness flags, zero payload.
/// Dispatch depends on header and length only (payload bytes are copied, see family (ii)), so this is complete for the
/// Shelley arms' accept/reject decision and classification.
#[kani::proof]
#[kani::stub(alloc::fmt::format, stub_format)]
#[kani::stub(ByronAddress::from_bytes, stub_byron_from_bytes)]
#[kani::unwind(62)]
fn shelley_header_length_dispatch() {
    let header: u8 = kani::any();
    let len: usize = kani::any();
    let lenient: bool = kani::any();
    kani::assume(len <= 60);
    let mut buf = [0u8; 60];
    if len > 0 { buf[0] = header; }
    let data = &buf[..len];
    let r = Address::from_bytes_internal_impl(data, lenient);
    if len == 0 { assert!(r.is_err()); return; }
    let k = expect_kind(header);
    let net = header & 0x0F;
    match r {
        Ok(addr) => {
            match &addr.0 {
                AddrType::Base(b) => {
                    assert!(k <= 3);
                    assert!(len == 57 || (lenient && len > 57));
                    assert!(b.network == net);
                    assert!(matches!(b.payment.0, CredType::Script(_)) == (header & 0x10 != 0));
                    assert!(matches!(b.stake.0, CredType::Script(_)) == (header & 0x20 != 0));
                }
                AddrType::Ptr(p) => {
                    assert!(k == 4 || k == 5);
                    // zero payload: the three naturals are 0 0 0 (one byte each)
                    assert!(len == 32 || (lenient && len > 32));
                    assert!(p.network == net);
                    assert!(matches!(p.payment.0, CredType::Script(_)) == (header & 0x10 != 0));
                    assert!(p.stake.slot.0 == 0 && p.stake.tx_index.0 == 0 && p.stake.cert_index.0 == 0);
                }
                AddrType::Enterprise(e) => {
                    assert!(k == 6 || k == 7);
                    assert!(len == 29 || (lenient && len > 29));
                    assert!(e.network == net);
                    assert!(matches!(e.payment.0, CredType::Script(_)) == (header & 0x10 != 0));
                }
                AddrType::Reward(w) => {
                    assert!(k == 14 || k == 15);
                    assert!(len == 29 || (lenient && len > 29));
                    assert!(w.network == net);
                    assert!(matches!(w.payment.0, CredType::Script(_)) == (header & 0x10 != 0));
                }
                AddrType::Byron(_) => { assert!(false, "Byron arm is stubbed to fail"); }
                AddrType::Malformed(_) => { assert!(false, "internal parser never yields Malformed"); }
            }
        }
        Err(_) => {
            // rejected: must NOT be a well-formed Shelley address of an accepted length
            let ok_len = match k {
                0..=3 => len == 57 || (lenient && len > 57),
                4 | 5 => len == 32 || (lenient && len > 32),
                6 | 7 | 14 | 15 => len == 29 || (lenient && len > 29),
                _ => false,
            };
            assert!(!ok_len);
        }
    }
}

/// quick-tier cut of the dispatch harness: lengths 0..=33 (covers the 29-byte and 32-byte accept thresholds)
#[kani::proof]
#[kani::stub(alloc::fmt::format, stub_format)]
#[kani::stub(ByronAddress::from_bytes, stub_byron_from_bytes)]
#[kani::unwind(36)]
fn shelley_header_length_dispatch_short() {
    let header: u8 = kani::any();
    let len: usize = kani::any();
    let lenient: bool = kani::any();
    kani::assume(len <= 33);
    let mut buf = [0u8; 33];
    if len > 0 { buf[0] = header; }
    let data = &buf[..len];
    let r = Address::from_bytes_internal_impl(data, lenient);
    if len == 0 { assert!(r.is_err()); return; }
    let k = expect_kind(header);
    let net = header & 0x0F;
    match r {
        Ok(addr) => {
            match &addr.0 {
                AddrType::Base(_) => { assert!(false, "base address needs 57 bytes"); }
                AddrType::Ptr(p) => {
                    assert!(k == 4 || k == 5);
                    assert!(len == 32 || (lenient && len > 32));
                    assert!(p.network == net);
                    assert!(matches!(p.payment.0, CredType::Script(_)) == (header & 0x10 != 0));
                }
                AddrType::Enterprise(e) => {
                    assert!(k == 6 || k == 7);
                    assert!(len == 29 || (lenient && len > 29));
                    assert!(e.network == net);
                    assert!(matches!(e.payment.0, CredType::Script(_)) == (header & 0x10 != 0));
                }
                AddrType::Reward(w) => {
                    assert!(k == 14 || k == 15);
                    assert!(len == 29 || (lenient && len > 29));
                    assert!(w.network == net);
                    assert!(matches!(w.payment.0, CredType::Script(_)) == (header & 0x10 != 0));
                }
                AddrType::Byron(_) => { assert!(false, "Byron arm is stubbed to fail"); }
                AddrType::Malformed(_) => { assert!(false, "internal parser never yields Malformed"); }
            }
        }
        Err(_) => {
            let ok_len = match k {
                4 | 5 => len == 32 || (lenient && len > 32),
                6 | 7 | 14 | 15 => len == 29 || (lenient && len > 29),
                _ => false,
            };
            assert!(!ok_len);
        }
    }
}

/// C11 family (ii-base): payload is copied verbatim into the credentials (base address, all 57 bytes symbolic)
#[kani::proof]
#[kani::stub(alloc::fmt::format, stub_format)]
#[kani::stub(ByronAddress::from_bytes, stub_byron_from_bytes)]
#[kani::unwind(60)]
fn base_payload_copied() {
    let data: [u8; 57] = kani::any();
    kani::assume((data[0] & 0xF0) >> 4 <= 3);
    match Address::from_bytes_internal_impl(&data, false) {
        Ok(addr) => match &addr.0 {
            AddrType::Base(b) => {
                let p: &[u8; 28] = match &b.payment.0 { CredType::Key(h) => &h.0, CredType::Script(h) => &h.0 };
                let s: &[u8; 28] = match &b.stake.0 { CredType::Key(h) => &h.0, CredType::Script(h) => &h.0 };
                let i: usize = kani::any();
                kani::assume(i < 28);
                assert!(p[i] == data[1 + i]);
                assert!(s[i] == data[29 + i]);
            }
            _ => { assert!(false); }
        },
        Err(_) => { assert!(false, "57-byte base address rejected"); }
    }
}

/// C11 family (ii-single): enterprise / reward, all 29 bytes symbolic
#[kani::proof]
#[kani::stub(alloc::fmt::format, stub_format)]
#[kani::stub(ByronAddress::from_bytes, stub_byron_from_bytes)]
#[kani::unwind(32)]
fn enterprise_reward_payload_copied() {
    let data: [u8; 29] = kani::any();
    let k = (data[0] & 0xF0) >> 4;
    kani::assume(k == 6 || k == 7 || k == 14 || k == 15);
    match Address::from_bytes_internal_impl(&data, false) {
        Ok(addr) => {
            let cred = match &addr.0 {
                AddrType::Enterprise(e) => { assert!(k == 6 || k == 7); &e.payment }
                AddrType::Reward(w) => { assert!(k >= 14); &w.payment }
                _ => { assert!(false); return; }
            };
            let p: &[u8; 28] = match &cred.0 { CredType::Key(h) => &h.0, CredType::Script(h) => &h.0 };
            let i: usize = kani::any();
            kani::assume(i < 28);
            assert!(p[i] == data[1 + i]);
        }
        Err(_) => { assert!(false, "29-byte enterprise/reward address rejected"); }
    }
}

/// C11: to_bytes of a constructed enterprise / reward / base address writes header = kind bits | network and the hashes verbatim
#[kani::proof]
#[kani::unwind(60)]
fn constructed_to_bytes_layout() {
    let net: u8 = kani::any();
    kani::assume(net <= 15);
    let h1: [u8; 28] = kani::any();
    let h2: [u8; 28] = kani::any();
    let s1: bool = kani::any();
    let s2: bool = kani::any();
    let c1 = if s1 { Credential(CredType::Script(ScriptHash(h1))) } else { Credential(CredType::Key(Ed25519KeyHash(h1))) };
    let c2 = if s2 { Credential(CredType::Script(ScriptHash(h2))) } else { Credential(CredType::Key(Ed25519KeyHash(h2))) };
    let which: u8 = kani::any();
    kani::assume(which < 3);
    let i: usize = kani::any();
    kani::assume(i < 28);
    if which == 0 {
        let b = Address(AddrType::Base(BaseAddress { network: net, payment: c1, stake: c2 })).to_bytes();
        assert!(b.len() == 57);
        assert!(b[0] == ((s1 as u8) << 4) | ((s2 as u8) << 5) | net);
        assert!(b[1 + i] == h1[i] && b[29 + i] == h2[i]);
    } else if which == 1 {
        let b = Address(AddrType::Enterprise(EnterpriseAddress { network: net, payment: c1 })).to_bytes();
        assert!(b.len() == 29);
        assert!(b[0] == 0b0110_0000 | ((s1 as u8) << 4) | net);
        assert!(b[1 + i] == h1[i]);
    } else {
        let b = Address(AddrType::Reward(RewardAddress { network: net, payment: c1 })).to_bytes();
        assert!(b.len() == 29);
        assert!(b[0] == 0b1110_0000 | ((s1 as u8) << 4) | net);
        assert!(b[1 + i] == h1[i]);
    }
}

/// C11/C02: the lenient (embedded) entry never fails and never panics: what is not a valid address is kept verbatim as Malformed
/// and written back unchanged.  All headers x lengths 0..=40, zero payload (dispatch only).
#[kani::proof]
#[kani::stub(alloc::fmt::format, stub_format)]
#[kani::stub(ByronAddress::from_bytes, stub_byron_from_bytes)]
#[kani::unwind(62)]
fn embedded_malformed_kept_verbatim() {
    let header: u8 = kani::any();
    let len: usize = kani::any();
    kani::assume(len <= 40);
    let mut buf = [0u8; 40];
    if len > 0 { buf[0] = header; }
    let data = &buf[..len];
    let addr = Address::from_bytes_impl_unsafe(data);
    if let AddrType::Malformed(m) = &addr.0 {
        assert!(m.0.len() == len);
        let out = addr.to_bytes();
        assert!(out.len() == len);
        if len > 0 { assert!(out[0] == header); }
    }
}
