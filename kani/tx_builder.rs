// Kani harnesses mounted into the crate module that owns the items under test (see MANIFEST.hooks)
