// Kani harnesses for builders/batch_tools/cbor_calculator.rs (private items: child module of the owner)
#![allow(unused_imports, dead_code)]
use super::*;

/// C13: the size calculator's head length equals the length of the head the real cbor_event writes, for all u64
#[kani::proof]
#[kani::unwind(10)]
fn struct_size_matches_real_cbor_head() {
    let n: u64 = kani::any();
    let mut se = cbor_event::se::Serializer::new_vec();
    match se.write_unsigned_integer(n) { Ok(_) => {}, Err(_) => { assert!(false); return; } }
    let real = se.finalize().len();
    assert!(CborCalculator::get_struct_size(n) == real);
    assert!(CborCalculator::get_coin_size(&BigNum(n)) == real);
    assert!(CborCalculator::get_tag_size(n) == real);
}

#[kani::proof]
#[kani::unwind(10)]
fn array_and_map_heads_match() {
    let n: u64 = kani::any();
    let mut se = cbor_event::se::Serializer::new_vec();
    match se.write_array(cbor_event::Len::Len(n)) { Ok(_) => {}, Err(_) => { assert!(false); return; } }
    let real = se.finalize().len();
    assert!(CborCalculator::get_struct_size(n) == real);
    let mut se2 = cbor_event::se::Serializer::new_vec();
    match se2.write_map(cbor_event::Len::Len(n)) { Ok(_) => {}, Err(_) => { assert!(false); return; } }
    assert!(CborCalculator::get_struct_size(n) == se2.finalize().len());
    // tag 258 + array head
    let mut se3 = cbor_event::se::Serializer::new_vec();
    match se3.write_tag(258) { Ok(_) => {}, Err(_) => { assert!(false); return; } }
    match se3.write_array(cbor_event::Len::Len(n)) { Ok(_) => {}, Err(_) => { assert!(false); return; } }
    assert!(CborCalculator::get_wrapped_struct_size(n) == se3.finalize().len());
}
