// Kani harnesses over the crate's public API + the standing stub set (DESIGN.md section 4).
#![allow(unused_imports, dead_code)]
use crate::*;

// ---- standing stubs -------------------------------------------------------------------------------
/// replaces alloc::fmt::format: only error-message text is lost
pub(crate) fn stub_format(_args: core::fmt::Arguments<'_>) -> String {
    String::new()
}

// ---- C14 / C01: leaf integer codecs through the real cbor_event --------------------------------------
#[kani::proof]
#[kani::stub(alloc::fmt::format, stub_format)]
#[kani::unwind(10)]
fn bignum_cbor_roundtrip() {
    let x: u64 = kani::any();
    let v = BigNum(x);
    let mut se = cbor_event::se::Serializer::new_vec();
    match cbor_event::se::Serialize::serialize(&v, &mut se) {
        Ok(_) => {}
        Err(_) => { assert!(false, "BigNum encode failed"); return; }
    }
    let bytes = se.finalize();
    // shortest head
    let expect_len: usize = if x <= 23 { 1 } else if x < 0x100 { 2 } else if x < 0x1_0000 { 3 } else if x < 0x1_0000_0000 { 5 } else { 9 };
    assert!(bytes.len() == expect_len);
    let mut de = cbor_event::de::Deserializer::from(std::io::Cursor::new(bytes));
    match <BigNum as crate::serialization::traits::Deserialize>::deserialize(&mut de) {
        Ok(w) => { assert!(w.0 == x); }
        Err(_) => { assert!(false, "BigNum decode failed"); }
    }
}

fn int_roundtrip_ok(v: i128) -> bool {
    let x = Int(v);
    let mut se = cbor_event::se::Serializer::new_vec();
    match cbor_event::se::Serialize::serialize(&x, &mut se) {
        Ok(_) => {}
        Err(_) => { return false; }
    }
    let bytes = se.finalize();
    let mut de = cbor_event::de::Deserializer::from(std::io::Cursor::new(bytes));
    match <Int as crate::serialization::traits::Deserialize>::deserialize(&mut de) {
        Ok(w) => w.0 == v,
        Err(_) => false,
    }
}

/// C14/C01: Int survives its CBOR encoding exactly over its WHOLE range -2^64 ..= 2^64-1 (real cbor_event, bit-precise)
#[kani::proof]
#[kani::stub(alloc::fmt::format, stub_format)]
#[kani::unwind(10)]
fn int_cbor_roundtrip_full_range() {
    let v: i128 = kani::any();
    kani::assume(v >= -(u64::MAX as i128) - 1 && v <= u64::MAX as i128);
    assert!(int_roundtrip_ok(v));
}

/// quick-tier cut: the width-class and sign boundaries only (concrete values; a regression guard, labelled bounded)
#[kani::proof]
#[kani::stub(alloc::fmt::format, stub_format)]
#[kani::unwind(10)]
fn int_cbor_roundtrip_boundaries() {
    let sel: u8 = kani::any();
    kani::assume(sel < 12);
    let v: i128 = match sel {
        0 => 0, 1 => -1, 2 => 23, 3 => -24, 4 => -25, 5 => i64::MAX as i128, 6 => i64::MIN as i128,
        7 => i64::MIN as i128 - 1, 8 => u64::MAX as i128, 9 => -(u64::MAX as i128) - 1, 10 => -(u64::MAX as i128), _ => (i64::MAX as i128) + 1,
    };
    assert!(int_roundtrip_ok(v));
}


/// C14/C01: BigInt in the range that is written as a plain CBOR uint / nint (-2^64 ..= 2^64-1) survives its encoding exactly
/// (real num_bigint, real cbor_event; the tag-2 / tag-3 byte-string forms are NOT in this harness)
fn bigint_roundtrip_ok(v: i128) -> bool {
    let x = crate::BigInt(num_bigint::BigInt::from(v));
    let mut se = cbor_event::se::Serializer::new_vec();
    match cbor_event::se::Serialize::serialize(&x, &mut se) {
        Ok(_) => {}
        Err(_) => { return false; }
    }
    let bytes = se.finalize();
    let mut de = cbor_event::de::Deserializer::from(std::io::Cursor::new(bytes));
    match <crate::BigInt as crate::serialization::traits::Deserialize>::deserialize(&mut de) {
        Ok(w) => w.0 == x.0,
        Err(_) => false,
    }
}
#[kani::proof]
#[kani::stub(alloc::fmt::format, stub_format)]
#[kani::unwind(10)]
fn bigint_cbor_roundtrip_small_range() {
    let v: i128 = kani::any();
    kani::assume(v >= -(u64::MAX as i128) - 1 && v <= u64::MAX as i128);
    assert!(bigint_roundtrip_ok(v));
}

// ---- C01: encode -> decode round trips of small composite types through the REAL encoders and decoders -------------------
fn ser<T: cbor_event::se::Serialize>(x: &T) -> Option<Vec<u8>> {
    let mut se = cbor_event::se::Serializer::new_vec();
    match x.serialize(&mut se) { Ok(_) => Some(se.finalize()), Err(_) => None }
}
fn de<T: crate::serialization::traits::Deserialize>(bytes: Vec<u8>) -> Option<T> {
    let mut d = cbor_event::de::Deserializer::from(std::io::Cursor::new(bytes));
    match T::deserialize(&mut d) { Ok(v) => Some(v), Err(_) => None }
}

/// ExUnits [mem, steps], UnitInterval #6.30([n, d]), ProtocolVersion [major, minor]: all field values
#[kani::proof]
#[kani::stub(alloc::fmt::format, stub_format)]
#[kani::unwind(12)]
fn roundtrip_small_structs() {
    let a: u64 = kani::any();
    let b: u64 = kani::any();
    let which: u8 = kani::any();
    kani::assume(which < 3);
    if which == 0 {
        let x = ExUnits::new(&BigNum(a), &BigNum(b));
        match ser(&x) { Some(bytes) => match de::<ExUnits>(bytes) { Some(y) => { assert!(y.mem().0 == a && y.steps().0 == b); } None => { assert!(false); } }, None => { assert!(false); } }
    } else if which == 1 {
        let x = UnitInterval::new(&BigNum(a), &BigNum(b));
        match ser(&x) { Some(bytes) => match de::<UnitInterval>(bytes) { Some(y) => { assert!(y.numerator().0 == a && y.denominator().0 == b); } None => { assert!(false); } }, None => { assert!(false); } }
    } else {
        let x = ProtocolVersion::new(a as u32, b as u32);
        match ser(&x) { Some(bytes) => match de::<ProtocolVersion>(bytes) { Some(y) => { assert!(y.major() == a as u32 && y.minor() == b as u32); } None => { assert!(false); } }, None => { assert!(false); } }
    }
}

/// TransactionInput [hash32, index]: all hashes, all u32 indices
#[kani::proof]
#[kani::stub(alloc::fmt::format, stub_format)]
#[kani::unwind(40)]
fn roundtrip_transaction_input() {
    let h: [u8; 32] = kani::any();
    let idx: u32 = kani::any();
    let x = TransactionInput::new(&TransactionHash::from(h), idx);
    match ser(&x) {
        Some(bytes) => {
            assert!(bytes.len() == 1 + 34 + (if idx <= 23 { 1 } else if idx < 0x100 { 2 } else if idx < 0x1_0000 { 3 } else { 5 }));
            match de::<TransactionInput>(bytes) {
                Some(y) => { assert!(y.index() == idx); let i: usize = kani::any(); kani::assume(i < 32); assert!(y.transaction_id().0[i] == h[i]); }
                None => { assert!(false); }
            }
        }
        None => { assert!(false); }
    }
}

/// Value without assets: encodes as a bare coin and decodes back, all coins
#[kani::proof]
#[kani::stub(alloc::fmt::format, stub_format)]
#[kani::unwind(12)]
fn roundtrip_value_coin_only() {
    let c: u64 = kani::any();
    let v = Value::new(&BigNum(c));
    match ser(&v) {
        Some(bytes) => match de::<Value>(bytes) { Some(w) => { assert!(w.coin().0 == c && w.multiasset().is_none()); } None => { assert!(false); } },
        None => { assert!(false); }
    }
}

// ---- C14: Value / MultiAsset arithmetic and comparison against a component-wise reference, on a fixed universe of
// 2 policies x 2 asset names with symbolic presence (absent / explicit zero / any amount) and symbolic coins: BOUNDED shape --------
fn mk_value(coin: u64, present: [bool; 4], amt: [u64; 4]) -> Value {
    let p = [ScriptHash::from([0u8; 28]), ScriptHash::from([1u8; 28])];
    let n0 = match AssetName::new(vec![0x61]) { Ok(x) => x, Err(_) => { kani::assume(false); loop {} } };
    let n1 = match AssetName::new(vec![0x62]) { Ok(x) => x, Err(_) => { kani::assume(false); loop {} } };
    let mut ma = MultiAsset::new();
    let mut any = false;
    let mut i = 0;
    while i < 4 {
        if present[i] {
            let name = if i % 2 == 0 { &n0 } else { &n1 };
            ma.set_asset(&p[i / 2], name, &BigNum(amt[i]));
            any = true;
        }
        i += 1;
    }
    let mut v = Value::new(&BigNum(coin));
    if any { v.set_multiasset(&ma); }
    v
}
fn view(v: &Value) -> [u64; 4] {
    let p = [ScriptHash::from([0u8; 28]), ScriptHash::from([1u8; 28])];
    let n0 = match AssetName::new(vec![0x61]) { Ok(x) => x, Err(_) => { kani::assume(false); loop {} } };
    let n1 = match AssetName::new(vec![0x62]) { Ok(x) => x, Err(_) => { kani::assume(false); loop {} } };
    let mut out = [0u64; 4];
    if let Some(ma) = v.multiasset() {
        out[0] = ma.get_asset(&p[0], &n0).0; out[1] = ma.get_asset(&p[0], &n1).0;
        out[2] = ma.get_asset(&p[1], &n0).0; out[3] = ma.get_asset(&p[1], &n1).0;
    }
    out
}
fn any_amounts() -> ([bool; 4], [u64; 4]) {
    let present: [bool; 4] = kani::any();
    let amt: [u64; 4] = kani::any();
    (present, amt)
}
fn eff(present: [bool; 4], amt: [u64; 4], i: usize) -> u64 { if present[i] { amt[i] } else { 0 } }

#[kani::proof]
#[kani::stub(alloc::fmt::format, stub_format)]
#[kani::unwind(8)]
fn value_checked_add_exact_2x2() {
    let (pa, aa) = any_amounts();
    let (pb, ab) = any_amounts();
    let ca: u64 = kani::any();
    let cb: u64 = kani::any();
    let a = mk_value(ca, pa, aa);
    let b = mk_value(cb, pb, ab);
    let mut overflow = ca.checked_add(cb).is_none();
    let mut i = 0;
    while i < 4 { if eff(pa, aa, i).checked_add(eff(pb, ab, i)).is_none() { overflow = true; } i += 1; }
    match a.checked_add(&b) {
        Ok(s) => {
            assert!(!overflow, "checked_add returned Ok although a component overflows");
            assert!(s.coin().0 == ca + cb);
            let v = view(&s);
            let mut j = 0;
            while j < 4 { assert!(v[j] == eff(pa, aa, j) + eff(pb, ab, j)); j += 1; }
        }
        Err(_) => { assert!(overflow, "checked_add failed although every component fits"); }
    }
}

#[kani::proof]
#[kani::stub(alloc::fmt::format, stub_format)]
#[kani::unwind(8)]
fn value_compare_componentwise_2x2() {
    let (pa, aa) = any_amounts();
    let (pb, ab) = any_amounts();
    let ca: u64 = kani::any();
    let cb: u64 = kani::any();
    let a = mk_value(ca, pa, aa);
    let b = mk_value(cb, pb, ab);
    let mut le = ca <= cb;
    let mut ge = ca >= cb;
    let mut i = 0;
    while i < 4 { if eff(pa, aa, i) > eff(pb, ab, i) { le = false; } if eff(pa, aa, i) < eff(pb, ab, i) { ge = false; } i += 1; }
    let expect: Option<i8> = if le && ge { Some(0) } else if le { Some(-1) } else if ge { Some(1) } else { None };
    assert!(a.compare(&b) == expect);
}

#[kani::proof]
#[kani::stub(alloc::fmt::format, stub_format)]
#[kani::unwind(8)]
fn value_sub_undoes_add_2x2() {
    let (pa, aa) = any_amounts();
    let (pb, ab) = any_amounts();
    let ca: u64 = kani::any();
    let cb: u64 = kani::any();
    let a = mk_value(ca, pa, aa);
    let b = mk_value(cb, pb, ab);
    if let Ok(s) = a.checked_add(&b) {
        match s.checked_sub(&b) {
            Ok(d) => {
                assert!(d.coin().0 == ca);
                let v = view(&d);
                let mut j = 0;
                while j < 4 { assert!(v[j] == eff(pa, aa, j)); j += 1; }
            }
            Err(_) => { assert!(false, "(a+b)-b failed"); }
        }
    }
}

// ---- C09: language views (cost-model part of the script-integrity preimage) ------------------------------------------------------
// Every subset of {PlutusV1, PlutusV2, PlutusV3} (symbolic presence: complete), with fixed two-entry cost models (bounded in content):
// the bytes must be the ledger's canonical map: shorter keys first (01, 02 before 41 00), V1's key and value double-encoded as byte
// strings with an indefinite inner array, V2/V3 as plain uint key and definite array.
#[kani::proof]
#[kani::stub(alloc::fmt::format, stub_format)]
#[kani::unwind(12)]
fn language_views_canonical_all_subsets() {
    let p1: bool = kani::any();
    let p2: bool = kani::any();
    let p3: bool = kani::any();
    let mut cm = CostModel::new();
    cm.0 = vec![Int::new_i32(1), Int::new_i32(2)];
    let mut c = Costmdls::new();
    if p3 { c.0.insert(Language::new_plutus_v3(), cm.clone()); }
    if p1 { c.0.insert(Language::new_plutus_v1(), cm.clone()); }
    if p2 { c.0.insert(Language::new_plutus_v2(), cm.clone()); }
    let got = c.language_views_encoding();
    let n = (p1 as u8) + (p2 as u8) + (p3 as u8);
    let mut exp: Vec<u8> = vec![0xa0 + n];
    if p2 { exp.extend_from_slice(&[0x01, 0x82, 0x01, 0x02]); }
    if p3 { exp.extend_from_slice(&[0x02, 0x82, 0x01, 0x02]); }
    if p1 { exp.extend_from_slice(&[0x41, 0x00, 0x44, 0x9f, 0x01, 0x02, 0xff]); }
    assert!(got == exp);
}
