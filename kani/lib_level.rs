// Kani harnesses over the crate's public API + the standing stub set (DESIGN.md section 4).
#![allow(unused_imports, dead_code)]
use crate::*;

// ---- standing stubs -------------------------------------------------------------------------------
/// replaces alloc::fmt::format: only error-message text is lost
pub(crate) fn stub_format(_args: core::fmt::Arguments<'_>) -> String {
    String::new()
}

// ---- C14 / C01: leaf integer codecs through the real cbor_event --------------------------------------
#[kani::proof]
#[kani::stub(alloc::fmt::format, stub_format)]
#[kani::unwind(10)]
fn bignum_cbor_roundtrip() {
    let x: u64 = kani::any();
    let v = BigNum(x);
    let mut se = cbor_event::se::Serializer::new_vec();
    match cbor_event::se::Serialize::serialize(&v, &mut se) {
        Ok(_) => {}
        Err(_) => { assert!(false, "BigNum encode failed"); return; }
    }
    let bytes = se.finalize();
    // shortest head
    let expect_len: usize = if x <= 23 { 1 } else if x < 0x100 { 2 } else if x < 0x1_0000 { 3 } else if x < 0x1_0000_0000 { 5 } else { 9 };
    assert!(bytes.len() == expect_len);
    let mut de = cbor_event::de::Deserializer::from(std::io::Cursor::new(bytes));
    match <BigNum as crate::serialization::traits::Deserialize>::deserialize(&mut de) {
        Ok(w) => { assert!(w.0 == x); }
        Err(_) => { assert!(false, "BigNum decode failed"); }
    }
}
