// Kani harnesses over the crate's public API + the standing stub set (DESIGN.md section 4).
#![allow(unused_imports, dead_code)]
use crate::*;

// ---- standing stubs -------------------------------------------------------------------------------
/// replaces alloc::fmt::format: only error-message text is lost
pub(crate) fn stub_format(_args: core::fmt::Arguments<'_>) -> String {
    String::new()
}

// ---- C14 / C01: leaf integer codecs through the real cbor_event --------------------------------------
#[kani::proof]
#[kani::stub(alloc::fmt::format, stub_format)]
#[kani::unwind(10)]
fn bignum_cbor_roundtrip() {
    let x: u64 = kani::any();
    let v = BigNum(x);
    let mut se = cbor_event::se::Serializer::new_vec();
    match cbor_event::se::Serialize::serialize(&v, &mut se) {
        Ok(_) => {}
        Err(_) => { assert!(false, "BigNum encode failed"); return; }
    }
    let bytes = se.finalize();
    // shortest head
    let expect_len: usize = if x <= 23 { 1 } else if x < 0x100 { 2 } else if x < 0x1_0000 { 3 } else if x < 0x1_0000_0000 { 5 } else { 9 };
    assert!(bytes.len() == expect_len);
    let mut de = cbor_event::de::Deserializer::from(std::io::Cursor::new(bytes));
    match <BigNum as crate::serialization::traits::Deserialize>::deserialize(&mut de) {
        Ok(w) => { assert!(w.0 == x); }
        Err(_) => { assert!(false, "BigNum decode failed"); }
    }
}

fn int_roundtrip_ok(v: i128) -> bool {
    let x = Int(v);
    let mut se = cbor_event::se::Serializer::new_vec();
    match cbor_event::se::Serialize::serialize(&x, &mut se) {
        Ok(_) => {}
        Err(_) => { return false; }
    }
    let bytes = se.finalize();
    let mut de = cbor_event::de::Deserializer::from(std::io::Cursor::new(bytes));
    match <Int as crate::serialization::traits::Deserialize>::deserialize(&mut de) {
        Ok(w) => w.0 == v,
        Err(_) => false,
    }
}

/// C14/C01: Int survives its CBOR encoding exactly over its WHOLE range -2^64 ..= 2^64-1 (real cbor_event, bit-precise)
#[kani::proof]
#[kani::stub(alloc::fmt::format, stub_format)]
#[kani::unwind(10)]
fn int_cbor_roundtrip_full_range() {
    let v: i128 = kani::any();
    kani::assume(v >= -(u64::MAX as i128) - 1 && v <= u64::MAX as i128);
    assert!(int_roundtrip_ok(v));
}

/// quick-tier cut: the width-class and sign boundaries only (concrete values; a regression guard, labelled bounded)
#[kani::proof]
#[kani::stub(alloc::fmt::format, stub_format)]
#[kani::unwind(10)]
fn int_cbor_roundtrip_boundaries() {
    let sel: u8 = kani::any();
    kani::assume(sel < 12);
    let v: i128 = match sel {
        0 => 0, 1 => -1, 2 => 23, 3 => -24, 4 => -25, 5 => i64::MAX as i128, 6 => i64::MIN as i128,
        7 => i64::MIN as i128 - 1, 8 => u64::MAX as i128, 9 => -(u64::MAX as i128) - 1, 10 => -(u64::MAX as i128), _ => (i64::MAX as i128) + 1,
    };
    assert!(int_roundtrip_ok(v));
}
